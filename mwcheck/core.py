"""Obligations, verdicts, known findings, evidence."""
import json
import os
import time

from .facts import loc_str

VERIF = os.path.dirname(os.path.dirname(os.path.abspath(__file__)))

TRUSTED_BASE = [
    "rustc type checker, MIR construction (-Zmir-opt-level=0) and Instance resolution of the pinned nightly",
    "cargo check (dev profile) builds the same non-test items as the test build",
    "mwfacts serialisation of MIR/HIR to JSON",
    "external (std / num / crates.io) callees not listed as panicking are assumed total",
]


class Ob:
    """One obligation of one rule."""

    def __init__(self, rule, key, ok, what, locs=(), detail=None, nontrivial=True, kind=None):
        self.rule = rule
        self.key = key            # line-free, stable
        self.ok = ok
        self.what = what          # one sentence
        self.locs = [l if isinstance(l, str) else loc_str(l) for l in locs]
        self.detail = detail or {}
        self.nontrivial = nontrivial
        self.kind = kind          # e.g. 'anchor-lost'
        self.status = None        # discharged | known-finding | violation

    def to_json(self):
        return {"rule": self.rule, "key": self.key, "status": self.status, "what": self.what,
                "locs": self.locs, "detail": self.detail, "kind": self.kind}


class Report:
    def __init__(self, prop):
        self.prop = prop
        self.obs = []
        self.rules = {}      # rule id -> text
        self.notes = []
        self.not_decided = []

    def rule(self, rid, text):
        self.rules[rid] = text

    def add(self, *a, **k):
        o = Ob(*a, **k)
        self.obs.append(o)
        return o

    def ok(self, rule, key, what, locs=(), **k):
        return self.add(rule, key, True, what, locs, **k)

    def fail(self, rule, key, what, locs=(), **k):
        return self.add(rule, key, False, what, locs, **k)

    def anchor_lost(self, rule, what, key=None):
        return self.add(rule, key or ("%s|anchor-lost|%s" % (rule, what)), False,
                        "anchor lost: " + what, kind="anchor-lost")

    def floor(self, rule, name, count, floor):
        """fail closed when fewer instances are seen than were confirmed by hand"""
        if count < floor:
            self.add(rule, "%s|floor|%s" % (rule, name), False,
                     "anchor lost: %s — %d instance(s) found, at least %d confirmed by hand on the pinned tree"
                     % (name, count, floor), kind="anchor-lost")
        else:
            self.add(rule, "%s|floor|%s" % (rule, name), True,
                     "%s: %d instance(s) (floor %d)" % (name, count, floor), nontrivial=False)

    def note(self, s):
        self.notes.append(s)


def load_known():
    p = os.path.join(VERIF, "known_findings.json")
    if not os.path.exists(p):
        return {"findings": [], "fixed": []}
    with open(p) as f:
        return json.load(f)


def finish(rep, tier, seed, t0, meta, census, extra=None):
    """Classify, print, write evidence + replay files. Returns exit status."""
    prop = rep.prop
    known = load_known()
    kmap = {}
    for k in known.get("findings", []):
        if k["property"] == prop:
            kmap[k["key"]] = k
    ev_dir = os.path.join(VERIF, "evidence")
    if os.path.realpath(meta.get("root") or "/repo") != os.path.realpath(os.environ.get("MW_REPO", "/repo")):
        ev_dir = os.path.join(VERIF, ".work", "evidence-scratch")   # a mutant/scratch tree never rewrites real evidence
    rp_dir = os.path.join(ev_dir, "replay")
    os.makedirs(rp_dir, exist_ok=True)
    for fn in os.listdir(rp_dir):
        if fn.startswith(prop + "-"):
            try:
                os.remove(os.path.join(rp_dir, fn))
            except OSError:
                pass
    nviol = 0
    nknown = 0
    ndis = 0
    seen_known = set()
    lines = []
    for o in rep.obs:
        if o.ok:
            o.status = "discharged"
            ndis += 1
        elif o.key in kmap:
            o.status = "known-finding"
            nknown += 1
            if o.key not in seen_known:
                seen_known.add(o.key)
                lines.append("KNOWN-FINDING: property=%s %s [%s] input: %s" % (
                    prop, kmap[o.key].get("what", o.what), o.key, kmap[o.key].get("input", "-")))
        else:
            o.status = "violation"
            nviol += 1
            rp = os.path.join(rp_dir, "%s-%d.json" % (prop, nviol))
            with open(rp, "w") as f:
                json.dump({"property": prop, "tree": meta.get("root"), **o.to_json()}, f, indent=1)
            lines.append("VIOLATION property=%s replay=%s" % (prop, rp))
            lines.append("  rule %s: %s" % (o.rule, o.what))
            lines.append("  key: %s" % o.key)
            if o.locs:
                lines.append("  at: %s" % ", ".join(o.locs[:6]))
    # listed findings that no longer fire are reported (informational), never an alarm
    stale = [k for k in kmap if k not in seen_known]
    for k in stale:
        lines.append("note: listed finding no longer reported (repaired or construct gone): %s" % k)
    wall = time.time() - t0
    per_rule = {}
    for o in rep.obs:
        r = per_rule.setdefault(o.rule, {"obligations": 0, "discharged": 0, "known_findings": 0,
                                         "violations": 0, "text": rep.rules.get(o.rule, "")})
        r["obligations"] += 1
        r[{"discharged": "discharged", "known-finding": "known_findings",
           "violation": "violations"}[o.status]] += 1
    nontriv = len({o.key for o in rep.obs if o.nontrivial})
    samples = []
    seen_rules = set()
    for o in rep.obs:
        if o.rule not in seen_rules or (o.status != "discharged" and len(samples) < 40):
            seen_rules.add(o.rule)
            samples.append(o.to_json())
    samples = samples[:40]
    ev = {
        "property_id": prop,
        "tier": tier,
        "seed": seed,
        "level": "other",
        "coverage": {
            "explanation": (
                "Static analysis of /repo's type-checked program (MIR control-flow graphs, resolved callees, "
                "call graph, HIR types) extracted by a rustc_private driver on this run; no code under /repo was "
                "executed. Each rule enumerates its instances (obligations) from the current source and applies "
                "the stated structural argument; an obligation is discharged, an exact listed known finding, or a "
                "violation. Rules decide necessary conditions of the property, not its full behaviour."),
            "evaluations": len(rep.obs),
            "distinct_nontrivial": nontriv,
            "rule": "obligation = one instance of a rule enumerated from the source (call site, arm, field, table "
                    "entry, path); non-trivial = its verdict needed a CFG/dataflow/table argument rather than a "
                    "bare instance count; distinct by obligation key (line-free)",
            "obligations": len(rep.obs),
            "discharged": ndis,
            "known_findings": nknown,
            "violations": nviol,
            "rules": per_rule,
            "samples": samples,
            "analysed": census,
            "extraction": meta,
            "not_decided": rep.not_decided,
            "notes": rep.notes,
            "checker_cmd": "./check %s --tier %s" % (prop, tier),
            "trusted_base": TRUSTED_BASE,
        },
        "assumptions": TRUSTED_BASE,
        "wall_s": round(wall, 2),
        "violations": nviol,
    }
    if extra:
        ev["coverage"].update(extra)
    with open(os.path.join(ev_dir, prop + ".json"), "w") as f:
        json.dump(ev, f, indent=1)
    try:
        _emit(rep, prop, tier, ndis, nknown, nviol, wall, meta, per_rule, lines)
    except BrokenPipeError:
        pass
    return 1 if nviol else 0


def _emit(rep, prop, tier, ndis, nknown, nviol, wall, meta, per_rule, lines):
    print("== %s [%s]: %d obligations, %d discharged, %d known findings, %d violations (%.1fs; facts %s)" % (
        prop, tier, len(rep.obs), ndis, nknown, nviol, wall,
        "cached" if meta.get("cached") else "extracted in %ss" % meta.get("extract_s")))
    for r, d in sorted(per_rule.items()):
        print("   %-6s %3d obligations  %3d discharged  %2d known  %2d violations" % (
            r, d["obligations"], d["discharged"], d["known_findings"], d["violations"]))
    for l in lines:
        print(l)
