"""Fact extraction: run the mwfacts driver over a source tree (default /repo).

Facts are cached by content hash of the analysed tree under .work/facts/<hash>/<cfg>/.
Nothing is reused across different source contents; cargo's freshness cache is
defeated by deleting the workspace members' fingerprints before every run and
by asserting that every fact file was rewritten by this run.
"""
import fcntl
import hashlib
import json
import os
import shutil
import subprocess
import sys
import time

VERIF = os.path.dirname(os.path.dirname(os.path.abspath(__file__)))
WORK = os.path.join(VERIF, ".work")
DRIVER_DIR = os.path.join(VERIF, "driver")
DRIVER = os.path.join(DRIVER_DIR, "target", "release", "mwfacts")
REPO = os.environ.get("MW_REPO", "/repo")
CRATES = ["marwood", "marwood_repl", "marwood_wasm"]

CONFIGS = {
    # the profile the real build/test uses (dev: debug assertions + overflow checks)
    "dev": "-Zmir-opt-level=0 -Awarnings",
    # release-like cfg so that cfg(not(debug_assertions)) items are analysed too
    "nodebug": "-Zmir-opt-level=0 -Awarnings -C debug-assertions=off -C overflow-checks=on",
}


def _env():
    env = dict(os.environ)
    env["CARGO_NET_OFFLINE"] = "true"
    env.pop("RUSTC_WRAPPER", None)
    return env


def nightly_sysroot():
    return subprocess.check_output(
        ["rustc", "+nightly", "--print", "sysroot"], env=_env(), text=True
    ).strip()


def tree_hash(root):
    """SHA-256 over every file the build can read (sources, manifests, lock, prelude)."""
    h = hashlib.sha256()
    files = []
    for dp, dns, fns in os.walk(root):
        dns[:] = sorted(d for d in dns if d not in ("target", ".git", "node_modules", "pkg"))
        for fn in sorted(fns):
            p = os.path.join(dp, fn)
            if os.path.islink(p):
                continue
            files.append(p)
    for p in files:
        rel = os.path.relpath(p, root)
        h.update(rel.encode())
        h.update(b"\0")
        try:
            with open(p, "rb") as f:
                h.update(f.read())
        except OSError:
            pass
        h.update(b"\0")
    # the driver is part of the key: new driver => new facts
    try:
        with open(os.path.join(DRIVER_DIR, "src", "main.rs"), "rb") as f:
            h.update(f.read())
    except OSError:
        pass
    return h.hexdigest()[:24]


def build_driver(quiet=True):
    if os.path.exists(DRIVER):
        src = os.path.join(DRIVER_DIR, "src", "main.rs")
        if os.path.getmtime(src) <= os.path.getmtime(DRIVER):
            return
    r = subprocess.run(
        ["cargo", "+nightly", "build", "--release", "--offline"],
        cwd=DRIVER_DIR, env=_env(), capture_output=True, text=True,
    )
    if r.returncode != 0:
        sys.stderr.write(r.stdout + r.stderr)
        raise SystemExit("mwcheck: building the fact extractor failed")


def extract(root=None, cfg="dev", log=None):
    """Return (facts_dir, meta). facts_dir holds <crate>.json for each workspace crate."""
    root = root or REPO
    os.makedirs(WORK, exist_ok=True)
    build_driver()
    th = tree_hash(root)
    out = os.path.join(WORK, "facts", th, cfg)
    meta_path = os.path.join(out, "meta.json")
    lock_path = os.path.join(WORK, "extract.lock")
    with open(lock_path, "w") as lk:
        fcntl.flock(lk, fcntl.LOCK_EX)
        if os.path.exists(meta_path) and all(
            os.path.exists(os.path.join(out, c + ".json")) for c in CRATES
        ):
            with open(meta_path) as f:
                meta = json.load(f)
            meta["cached"] = True
            # in use: keep it young, so that neither _prune nor a finishing audit of another check evicts it
            for d_ in (out, os.path.dirname(out)):
                try:
                    os.utime(d_)
                except OSError:
                    pass
            return out, meta
        if os.path.exists(out):
            shutil.rmtree(out)
        os.makedirs(out)
        target = os.path.join(WORK, "target-" + cfg)
        fp = os.path.join(target, "debug", ".fingerprint")
        if os.path.isdir(fp):
            for d in os.listdir(fp):
                if d.startswith("marwood"):
                    shutil.rmtree(os.path.join(fp, d), ignore_errors=True)
        env = _env()
        env["LD_LIBRARY_PATH"] = nightly_sysroot() + "/lib"
        env["RUSTFLAGS"] = CONFIGS[cfg]
        env["RUSTC_WORKSPACE_WRAPPER"] = DRIVER
        env["MWFACTS_OUT"] = out
        env["CARGO_TARGET_DIR"] = target
        t0 = time.time()
        r = subprocess.run(
            ["cargo", "+nightly", "check", "--offline", "--workspace"],
            cwd=root, env=env, capture_output=True, text=True,
        )
        dt = time.time() - t0
        if r.returncode != 0:
            sys.stderr.write(r.stdout[-4000:] + r.stderr[-8000:])
            shutil.rmtree(out, ignore_errors=True)
            raise SystemExit("mwcheck: cargo check of %s failed (the tree does not build)" % root)
        missing = [c for c in CRATES if not os.path.exists(os.path.join(out, c + ".json"))]
        if missing:
            sys.stderr.write(r.stderr[-4000:])
            shutil.rmtree(out, ignore_errors=True)
            raise SystemExit("mwcheck: fact files not rewritten for %s (stale cargo cache?)" % missing)
        meta = {"tree_hash": th, "cfg": cfg, "rustflags": CONFIGS[cfg], "root": root,
                "extract_s": round(dt, 2), "cached": False}
        with open(meta_path, "w") as f:
            json.dump(meta, f)
        _prune(os.path.join(WORK, "facts"), keep=th)
        return out, meta


def _prune(facts_root, keep, maxn=24, min_age_s=600):
    """drop the oldest cached fact sets beyond `maxn`, but never one younger than `min_age_s`: several analyses of scratch
    trees may run side by side (seed matrix, thorough-tier audit) and must not evict each other's facts"""
    try:
        now = time.time()
        ds = [d for d in os.listdir(facts_root) if d != keep]
        ds.sort(key=lambda d: os.path.getmtime(os.path.join(facts_root, d)))
        for d in ds[:-maxn] if len(ds) > maxn else []:
            if now - os.path.getmtime(os.path.join(facts_root, d)) >= min_age_s:
                shutil.rmtree(os.path.join(facts_root, d), ignore_errors=True)
    except OSError:
        pass


def warm():
    """setup: build the driver, and check-build the dependency graph once."""
    build_driver()
    extract(REPO, "dev")


if __name__ == "__main__":
    if len(sys.argv) > 1 and sys.argv[1] == "warm":
        warm()
    else:
        print(extract(sys.argv[1] if len(sys.argv) > 1 else None))
