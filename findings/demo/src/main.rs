// Triage aid (NOT a registered check): replays suspected defects against the real library so that a
// static finding can be classified as genuine before it is repaired or listed. Usage: mwdemo <scenario>...
use marwood::cell::Cell;
use marwood::vm::Vm;
use std::panic::{catch_unwind, AssertUnwindSafe};

struct Quiet;
impl log::Log for Quiet {
    fn enabled(&self, _: &log::Metadata) -> bool { true }
    fn log(&self, record: &log::Record) { let _ = format!("{}", record.args()); }
    fn flush(&self) {}
}
static QUIET: Quiet = Quiet;

fn eval_all(vm: &mut Vm, text: &str) -> Vec<String> {
    let mut out = vec![];
    let mut rest = Some(text);
    while let Some(t) = rest {
        if t.trim().is_empty() {
            break;
        }
        match catch_unwind(AssertUnwindSafe(|| vm.eval_text(t))) {
            Ok(Ok((c, r))) => {
                out.push(format!("{:#}", c));
                rest = r;
            }
            Ok(Err(e)) => {
                let s = catch_unwind(AssertUnwindSafe(|| format!("{}", e)))
                    .unwrap_or_else(|_| "<<PANIC while rendering the error>>".into());
                out.push(format!("ERR {}", s));
                break;
            }
            Err(_) => {
                out.push("<<PANIC>>".into());
                break;
            }
        }
    }
    out
}

fn gc_pressure(vm: &mut Vm) {
    // allocate enough garbage that heap utilisation crosses the collector's threshold
    eval_all(vm, "(define (mk-garbage n) (if (= n 0) '() (cons n (mk-garbage (- n 1)))))");
    for _ in 0..40 {
        eval_all(vm, "(mk-garbage 400)");
    }
}

fn main() {
    if std::env::var("MWDEMO_TRACE").is_ok() {
        // a logger at Trace level that formats every record and throws it away: what RUST_LOG=trace does in the REPL
        let _ = log::set_logger(&QUIET);
        log::set_max_level(log::LevelFilter::Trace);
    }
    if std::env::var("MWDEMO_LOUD").is_err() {
        std::panic::set_hook(Box::new(|_| {}));
    }
    for sc in std::env::args().skip(1) {
        let mut vm = Vm::new();
        println!("== {}", sc);
        match sc.as_str() {
            "gc-global-inline-vector" => {
                eval_all(&mut vm, "(define (mk) (list 1 2 3)) (define v `#(,(mk) ,(mk)))");
                println!("before: {:?}", eval_all(&mut vm, "v"));
                gc_pressure(&mut vm);
                println!("after:  {:?}", eval_all(&mut vm, "v"));
                println!("(eq? v v): {:?}", eval_all(&mut vm, "(eq? v v)"));
            }
            "run-count-1" => {
                let (cell, _) = marwood::parse::parse_text("(+ 1 2)").unwrap();
                vm.prepare_eval(&cell).unwrap();
                let mut done = None;
                for i in 0..1000 {
                    if let Ok(Some(c)) = vm.run_count(1) {
                        done = Some((i, c));
                        break;
                    }
                }
                println!("budget 1, 1000 resumes: {:?}", done.map(|(i, c)| format!("done after {} resumes: {}", i + 1, c)));
            }
            "error-frames" => {
                eval_all(&mut vm, "(define (f n) (if (= n 0) (car '()) (+ 1 (f (- n 1)))))");
                for _ in 0..3 {
                    let r = eval_all(&mut vm, "(f 50)");
                    let n = vm.last_stacktrace().map(|t| t.frames.len());
                    println!("{:?} frames={:?}", r, n);
                }
            }
            "run-unprepared" => {
                let r = catch_unwind(AssertUnwindSafe(|| vm.run_count(10)));
                println!("run_count(10) on a VM with nothing prepared: {}", match r { Ok(x) => format!("{:?}", x.map(|o| o.map(|c| c.to_string()))), Err(_) => "<<PANIC>>".into() });
                let mut vm2 = Vm::new();
                eval_all(&mut vm2, "(+ 1 2)");
                let r = catch_unwind(AssertUnwindSafe(|| vm2.run_count(10)));
                println!("run_count(10) after a completed evaluation: {}", match r { Ok(x) => format!("{:?}", x.map(|o| o.map(|c| c.to_string()))), Err(_) => "<<PANIC>>".into() });
            }
            "stale-trace" => {
                let _ = vm.eval_text("(car '())");
                println!("after run-time failure: trace frames = {:?}", vm.last_stacktrace().map(|t| t.frames.len()));
                let r = vm.eval_text("(if)");
                println!("after compile error {:?}: trace frames = {:?}", r.map(|x| x.0.to_string()).map_err(|e| e.to_string()), vm.last_stacktrace().map(|t| t.frames.len()));
                let r = vm.eval_text(")");
                println!("after parse error {:?}: trace frames = {:?}", r.map(|x| x.0.to_string()).map_err(|e| e.to_string()), vm.last_stacktrace().map(|t| t.frames.len()));
            }
            "highlight-vector" => {
                let h = marwood::syntax::ReplHighlighter::new();
                for (t, i) in [("#(a)", 3usize), ("#(a)", 0), ("(a #(b) c)", 9), ("(a #(b) c)", 0), ("#(a (b))", 7)] {
                    println!("{:?} @{} -> {:?} check={}", t, i, h.highlight(t, i), h.highlight_check(t, i + 1));
                }
            }
            other if other.starts_with("abandon:") => {
                // abandon:<n> — n times: start (deep 100000), run one slice of 3000 instructions, abandon it, evaluate (+ 1 2)
                let n: usize = other["abandon:".len()..].parse().unwrap();
                let _ = eval_all(&mut vm, "(define (deep n) (if (= n 0) 0 (+ 1 (deep (- n 1)))))");
                let before = format!("{:?}", vm).len();
                let mut last = String::new();
                for _ in 0..n {
                    let (cell, _) = marwood::parse::parse_text("(deep 100000)").unwrap();
                    vm.prepare_eval(&cell).unwrap();
                    let _ = vm.run_count(3000);
                    last = format!("{:?}", eval_all(&mut vm, "(+ 1 2)"));
                }
                println!("  abandon x{} => {}; debug size {} -> {}", n, last, before, format!("{:?}", vm).len());
            }
            other if other.starts_with("prepare:") => {
                // prepare:<n>:<form> — prepare the form n times without ever running it; report the debug-size growth
                let rest = &other["prepare:".len()..];
                let (n, form) = rest.split_once(':').unwrap();
                let n: usize = n.parse().unwrap();
                let before = format!("{:?}", vm).len();
                let (cell, _) = marwood::parse::parse_text(form).unwrap();
                for _ in 0..n {
                    vm.prepare_eval(&cell).unwrap();
                }
                println!("  prepare {} x{}; debug size {} -> {}", form.trim(), n, before, format!("{:?}", vm).len());
            }
            other if other.starts_with("rerun:") => {
                // rerun: a ;; b ;; c — evaluate the forms in order; after each one call vm.run() once more without preparing
                for part in other["rerun:".len()..].split(";;") {
                    let r = eval_all(&mut vm, part);
                    let again = match catch_unwind(AssertUnwindSafe(|| vm.run())) {
                        Ok(Ok(c)) => format!("{:#}", c),
                        Ok(Err(e)) => format!("ERR {}", e),
                        Err(_) => "<<PANIC>>".into(),
                    };
                    println!("  {} => {:?}; run() again => {}", part.trim(), r, again);
                }
            }
            other if other.starts_with("requote:") => {
                // requote:<form> — evaluate the form, then hand (quote <result>) back to Vm::eval as a Cell
                let (cell, _) = marwood::parse::parse_text(&other["requote:".len()..]).unwrap();
                let result = vm.eval(&cell).unwrap();
                let quoted = Cell::new_list(vec![Cell::new_symbol("quote"), result.clone()]);
                let r = match catch_unwind(AssertUnwindSafe(|| vm.eval(&quoted))) {
                    Ok(Ok(c)) => format!("{:#}", c),
                    Ok(Err(e)) => format!("ERR {}", e),
                    Err(_) => "<<PANIC>>".into(),
                };
                println!("  (quote {:#}) => {}", result, r);
            }
            other if other.starts_with("repeat:") => {
                // repeat:<n>:<form> — evaluate the form n times in one VM and report the size of the VM's debug rendering
                // (proportional to heap capacity) before and after
                let rest = &other["repeat:".len()..];
                let (n, form) = rest.split_once(':').unwrap();
                let n: usize = n.parse().unwrap();
                let before = format!("{:?}", vm).len();
                let mut last = vec![];
                for _ in 0..n {
                    last = eval_all(&mut vm, form);
                }
                println!("  {} x{} => {:?}; debug size {} -> {}", form.trim(), n, last, before, format!("{:?}", vm).len());
            }
            other if other.starts_with("session:") => {
                // forms separated by ";;" are evaluated one by one in the same VM, continuing after failures
                for part in other["session:".len()..].split(";;") {
                    if part.trim() == "#size" {
                        println!("  debug size {}", format!("{:?}", vm).len());
                        continue;
                    }
                    let r = eval_all(&mut vm, part);
                    println!("  {} => {:?} frames={:?}", part.trim(), r, vm.last_stacktrace().map(|t| t.frames.len()));
                }
            }
            other => {
                println!("{:?}", eval_all(&mut vm, other));
            }
        }
    }
    let _ = Cell::Nil;
}
