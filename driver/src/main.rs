// mwfacts — rustc_private fact extractor for the marwood static checks.
//
// Runs as RUSTC_WORKSPACE_WRAPPER under `cargo +nightly check`: argv[1] is the
// real rustc path (dropped), the rest are rustc's arguments. For workspace
// member crates it dumps, after analysis, one JSON file per crate into
// $MWFACTS_OUT: ADT layouts (resolved + HIR type spelling), every MIR body
// (CFG, statements, terminators, resolved callees, constants, source lines)
// and a census. Nothing under /repo is executed.
#![feature(rustc_private)]

extern crate rustc_abi;
extern crate rustc_driver;
extern crate rustc_hir;
extern crate rustc_interface;
extern crate rustc_middle;
extern crate rustc_span;

use rustc_hir::def::DefKind;
use rustc_hir::def_id::{DefId, LOCAL_CRATE};
use rustc_middle::mir::{
    self, AggregateKind, BasicBlock, Body, CastKind, Const, ConstValue, Operand, Place,
    ProjectionElem, Rvalue, StatementKind, TerminatorKind,
};
use rustc_middle::ty::print::{with_no_trimmed_paths, with_resolve_crate_name};
use rustc_middle::ty::{self, Instance, Ty, TyCtxt, TypingEnv};
use rustc_span::Span;
use std::fmt::Write as _;

// ---------------------------------------------------------------- JSON

enum J {
    Null,
    Bool(bool),
    Int(i128),
    Str(String),
    Arr(Vec<J>),
    Obj(Vec<(&'static str, J)>),
}

fn s<T: Into<String>>(x: T) -> J {
    J::Str(x.into())
}

impl J {
    fn write(&self, out: &mut String) {
        match self {
            J::Null => out.push_str("null"),
            J::Bool(b) => out.push_str(if *b { "true" } else { "false" }),
            J::Int(i) => {
                let _ = write!(out, "{}", i);
            }
            J::Str(st) => {
                out.push('"');
                for c in st.chars() {
                    match c {
                        '"' => out.push_str("\\\""),
                        '\\' => out.push_str("\\\\"),
                        '\n' => out.push_str("\\n"),
                        '\r' => out.push_str("\\r"),
                        '\t' => out.push_str("\\t"),
                        c if (c as u32) < 0x20 => {
                            let _ = write!(out, "\\u{:04x}", c as u32);
                        }
                        c => out.push(c),
                    }
                }
                out.push('"');
            }
            J::Arr(v) => {
                out.push('[');
                for (i, x) in v.iter().enumerate() {
                    if i > 0 {
                        out.push(',');
                    }
                    x.write(out);
                }
                out.push(']');
            }
            J::Obj(v) => {
                out.push('{');
                for (i, (k, x)) in v.iter().enumerate() {
                    if i > 0 {
                        out.push(',');
                    }
                    let _ = write!(out, "\"{}\":", k);
                    x.write(out);
                }
                out.push('}');
            }
        }
    }
}

// ---------------------------------------------------------------- helpers

struct Cx<'tcx> {
    tcx: TyCtxt<'tcx>,
    calls: usize,
    resolved: usize,
    indirect: usize,
    asserts: usize,
}

fn path_of(tcx: TyCtxt<'_>, did: DefId) -> String {
    with_resolve_crate_name!(with_no_trimmed_paths!(tcx.def_path_str(did)))
}

fn path_with_args<'tcx>(tcx: TyCtxt<'tcx>, did: DefId, args: ty::GenericArgsRef<'tcx>) -> String {
    with_resolve_crate_name!(with_no_trimmed_paths!(tcx.def_path_str_with_args(did, args)))
}

fn ty_str(t: Ty<'_>) -> String {
    with_resolve_crate_name!(with_no_trimmed_paths!(format!("{}", t)))
}

fn loc(tcx: TyCtxt<'_>, span: Span) -> J {
    let sm = tcx.sess.source_map();
    let root = span.source_callsite();
    let lo = sm.lookup_char_pos(root.lo());
    let file = format!("{}", lo.file.name.prefer_local_unconditionally());
    let mut v = vec![
        ("file", s(file)),
        ("line", J::Int(lo.line as i128)),
        ("col", J::Int(lo.col.0 as i128 + 1)),
    ];
    if span.from_expansion() {
        let ed = span.ctxt().outer_expn_data();
        let name = match ed.kind {
            rustc_span::ExpnKind::Macro(_, n) => n.to_string(),
            ref k => format!("{:?}", k),
        };
        v.push(("exp", s(name)));
        // innermost (un-rooted) position too, so a site inside a local macro
        // body can be shown where it is written
        let ilo = sm.lookup_char_pos(span.lo());
        v.push(("iline", J::Int(ilo.line as i128)));
        v.push((
            "ifile",
            s(format!("{}", ilo.file.name.prefer_local_unconditionally())),
        ));
    }
    J::Obj(v)
}

impl<'tcx> Cx<'tcx> {
    fn place(&self, body: &Body<'tcx>, p: &Place<'tcx>) -> J {
        let tcx = self.tcx;
        let mut proj = vec![];
        let mut cur_ty = mir::PlaceTy::from_ty(body.local_decls[p.local].ty);
        for elem in p.projection.iter() {
            match elem {
                ProjectionElem::Deref => proj.push(s("*")),
                ProjectionElem::Field(f, _) => {
                    // field name when the base is an ADT
                    let mut name = format!("{}", f.index());
                    if let ty::Adt(adt, _) = cur_ty.ty.kind() {
                        let vidx = cur_ty.variant_index.unwrap_or(rustc_abi::FIRST_VARIANT);
                        if adt.variants().len() > vidx.index() {
                            let v = adt.variant(vidx);
                            if let Some(fd) = v.fields.get(f) {
                                name = fd.name.to_string();
                            }
                        }
                    }
                    proj.push(J::Obj(vec![("f", J::Int(f.index() as i128)), ("n", s(name))]));
                }
                ProjectionElem::Downcast(sym, vi) => {
                    let mut name = sym.map(|x| x.to_string()).unwrap_or_default();
                    if name.is_empty() {
                        if let ty::Adt(adt, _) = cur_ty.ty.kind() {
                            name = adt.variant(vi).name.to_string();
                        }
                    }
                    proj.push(J::Obj(vec![("dc", s(name))]));
                }
                ProjectionElem::Index(l) => {
                    proj.push(J::Obj(vec![("idx", J::Int(l.index() as i128))]))
                }
                ProjectionElem::ConstantIndex { offset, from_end, .. } => proj.push(J::Obj(vec![
                    ("ci", J::Int(offset as i128)),
                    ("from_end", J::Bool(from_end)),
                ])),
                ProjectionElem::Subslice { from, to, from_end } => proj.push(J::Obj(vec![
                    ("sub", J::Int(from as i128)),
                    ("to", J::Int(to as i128)),
                    ("from_end", J::Bool(from_end)),
                ])),
                other => proj.push(s(format!("{:?}", other))),
            }
            cur_ty = cur_ty.projection_ty(tcx, elem);
        }
        J::Obj(vec![
            ("l", J::Int(p.local.index() as i128)),
            ("p", J::Arr(proj)),
            ("ty", s(ty_str(cur_ty.ty))),
        ])
    }

    fn constant(&self, env: TypingEnv<'tcx>, c: &mir::ConstOperand<'tcx>) -> J {
        let tcx = self.tcx;
        let cty = c.const_.ty();
        let mut v = vec![("ty", s(ty_str(cty)))];
        if let ty::FnDef(did, args) = cty.kind() {
            v.push(("fn", s(path_of(tcx, *did))));
            v.push(("fnargs", s(path_with_args(tcx, *did, args))));
            return J::Obj(vec![("const", J::Obj(v))]);
        }
        let scalar_ok = matches!(
            cty.kind(),
            ty::Int(_) | ty::Uint(_) | ty::Bool | ty::Char | ty::Float(_)
        );
        if scalar_ok {
            if let Some(si) = c.const_.try_eval_scalar_int(tcx, env) {
                let size = si.size();
                let bits = si.to_bits(size);
                let val: i128 = match cty.kind() {
                    ty::Int(_) => si.to_int(size),
                    _ => bits as i128,
                };
                v.push(("int", J::Int(val)));
                if let ty::Float(_) = cty.kind() {
                    v.push(("float", J::Bool(true)));
                }
            }
        } else if let ty::Ref(_, inner, _) = cty.kind() {
            if inner.is_str() {
                let cv = match c.const_ {
                    Const::Val(cv, _) => Some(cv),
                    other => other.eval(tcx, env, c.span).ok(),
                };
                if let Some(cv) = cv {
                    if let ConstValue::Slice { .. } | ConstValue::Indirect { .. } = cv {
                        if let Some(bytes) = cv.try_get_slice_bytes_for_diagnostics(tcx) {
                            v.push(("str", s(String::from_utf8_lossy(bytes).to_string())));
                        }
                    }
                }
            }
        }
        let text = with_no_trimmed_paths!(format!("{}", c.const_));
        v.push(("text", s(text)));
        J::Obj(vec![("const", J::Obj(v))])
    }

    fn operand(&self, body: &Body<'tcx>, env: TypingEnv<'tcx>, o: &Operand<'tcx>) -> J {
        match o {
            Operand::Copy(p) => J::Obj(vec![("copy", self.place(body, p))]),
            Operand::Move(p) => J::Obj(vec![("move", self.place(body, p))]),
            Operand::Constant(c) => self.constant(env, c),
            other => J::Obj(vec![("other", s(format!("{:?}", other)))]),
        }
    }

    fn rvalue(&self, body: &Body<'tcx>, env: TypingEnv<'tcx>, rv: &Rvalue<'tcx>) -> J {
        let tcx = self.tcx;
        match rv {
            Rvalue::Use(op, _) => J::Obj(vec![("k", s("use")), ("a", self.operand(body, env, op))]),
            Rvalue::Ref(_, bk, p) => J::Obj(vec![
                ("k", s("ref")),
                ("mut", J::Bool(matches!(bk, mir::BorrowKind::Mut { .. }))),
                ("place", self.place(body, p)),
            ]),
            Rvalue::RawPtr(_, p) => {
                J::Obj(vec![("k", s("rawptr")), ("place", self.place(body, p))])
            }
            Rvalue::CopyForDeref(p) => J::Obj(vec![
                ("k", s("use")),
                ("a", J::Obj(vec![("copy", self.place(body, p))])),
            ]),
            Rvalue::Cast(ck, op, t) => {
                let from = op.ty(&body.local_decls, tcx);
                let mut v = vec![
                    ("k", s("cast")),
                    ("ck", s(match ck {
                        CastKind::IntToInt => "IntToInt".to_string(),
                        CastKind::IntToFloat => "IntToFloat".to_string(),
                        CastKind::FloatToInt => "FloatToInt".to_string(),
                        CastKind::FloatToFloat => "FloatToFloat".to_string(),
                        CastKind::Transmute => "Transmute".to_string(),
                        CastKind::PtrToPtr => "PtrToPtr".to_string(),
                        CastKind::PointerCoercion(pc, _) => format!("PointerCoercion({:?})", pc),
                        other => format!("{:?}", other),
                    })),
                    ("a", self.operand(body, env, op)),
                    ("from", s(ty_str(from))),
                    ("to", s(ty_str(*t))),
                ];
                if let CastKind::PointerCoercion(_, _) = ck {
                    if let Some(c) = op.constant() {
                        if let ty::FnDef(did, _) = c.const_.ty().kind() {
                            v.push(("reify", s(path_of(tcx, *did))));
                        }
                    }
                }
                J::Obj(v)
            }
            Rvalue::BinaryOp(op, ab) => J::Obj(vec![
                ("k", s("bin")),
                ("op", s(format!("{:?}", op))),
                ("a", self.operand(body, env, &ab.0)),
                ("b", self.operand(body, env, &ab.1)),
                ("aty", s(ty_str(ab.0.ty(&body.local_decls, tcx)))),
            ]),
            Rvalue::UnaryOp(op, a) => J::Obj(vec![
                ("k", s("un")),
                ("op", s(format!("{:?}", op))),
                ("a", self.operand(body, env, a)),
                ("aty", s(ty_str(a.ty(&body.local_decls, tcx)))),
            ]),
            Rvalue::Discriminant(p) => {
                J::Obj(vec![("k", s("disc")), ("place", self.place(body, p))])
            }
            Rvalue::Aggregate(kind, ops) => {
                let mut v = vec![("k", s("agg"))];
                match &**kind {
                    AggregateKind::Adt(did, vidx, _, _, _) => {
                        let adt = tcx.adt_def(*did);
                        v.push(("adt", s(path_of(tcx, *did))));
                        v.push(("variant", s(adt.variant(*vidx).name.to_string())));
                        let names: Vec<J> = adt
                            .variant(*vidx)
                            .fields
                            .iter()
                            .map(|f| s(f.name.to_string()))
                            .collect();
                        v.push(("fields", J::Arr(names)));
                    }
                    AggregateKind::Tuple => v.push(("adt", s("(tuple)"))),
                    AggregateKind::Array(_) => v.push(("adt", s("[array]"))),
                    AggregateKind::Closure(did, _) => {
                        v.push(("adt", s("{closure}")));
                        v.push(("closure", s(path_of(tcx, *did))));
                    }
                    other => v.push(("adt", s(format!("{:?}", other)))),
                }
                v.push((
                    "ops",
                    J::Arr(ops.iter().map(|o| self.operand(body, env, o)).collect()),
                ));
                J::Obj(v)
            }
            Rvalue::Repeat(op, _) => {
                J::Obj(vec![("k", s("repeat")), ("a", self.operand(body, env, op))])
            }
            other => J::Obj(vec![("k", s("other")), ("text", s(format!("{:?}", other)))]),
        }
    }

    fn body(&mut self, did: DefId, body: &Body<'tcx>, promoted: Option<usize>) -> J {
        let tcx = self.tcx;
        let env = TypingEnv::post_analysis(tcx, did);
        let mut blocks = vec![];
        for (_bb, data) in body.basic_blocks.iter_enumerated() {
            let mut stmts = vec![];
            for st in &data.statements {
                match &st.kind {
                    StatementKind::Assign(b) => {
                        let (p, rv) = &**b;
                        stmts.push(J::Obj(vec![
                            ("lhs", self.place(body, p)),
                            ("rv", self.rvalue(body, env, rv)),
                            ("loc", loc(tcx, st.source_info.span)),
                        ]));
                    }
                    StatementKind::SetDiscriminant { place, variant_index } => {
                        stmts.push(J::Obj(vec![
                            ("lhs", self.place(body, place)),
                            (
                                "rv",
                                J::Obj(vec![
                                    ("k", s("setdisc")),
                                    ("variant", J::Int(variant_index.index() as i128)),
                                ]),
                            ),
                            ("loc", loc(tcx, st.source_info.span)),
                        ]));
                    }
                    _ => {}
                }
            }
            let term = data.terminator();
            let tl = loc(tcx, term.source_info.span);
            let bbi = |b: &BasicBlock| J::Int(b.index() as i128);
            let t = match &term.kind {
                TerminatorKind::Goto { target } => {
                    J::Obj(vec![("k", s("goto")), ("target", bbi(target))])
                }
                TerminatorKind::SwitchInt { discr, targets } => {
                    let mut ts = vec![];
                    for (val, bb) in targets.iter() {
                        ts.push(J::Arr(vec![J::Int(val as i128), bbi(&bb)]));
                    }
                    J::Obj(vec![
                        ("k", s("switch")),
                        ("op", self.operand(body, env, discr)),
                        ("opty", s(ty_str(discr.ty(&body.local_decls, tcx)))),
                        ("targets", J::Arr(ts)),
                        ("otherwise", bbi(&targets.otherwise())),
                    ])
                }
                TerminatorKind::Return => J::Obj(vec![("k", s("return"))]),
                TerminatorKind::Unreachable => J::Obj(vec![("k", s("unreachable"))]),
                TerminatorKind::UnwindResume => J::Obj(vec![("k", s("resume"))]),
                TerminatorKind::UnwindTerminate(_) => J::Obj(vec![("k", s("terminate"))]),
                TerminatorKind::Drop { place, target, .. } => J::Obj(vec![
                    ("k", s("drop")),
                    ("place", self.place(body, place)),
                    ("target", bbi(target)),
                ]),
                TerminatorKind::Call { func, args, destination, target, .. } => {
                    self.calls += 1;
                    let mut v = vec![("k", s("call"))];
                    if let Some((cdid, cargs)) = func.const_fn_def() {
                        v.push(("fn", s(path_of(tcx, cdid))));
                        v.push(("fnargs", s(path_with_args(tcx, cdid, cargs))));
                        v.push(("krate", s(tcx.crate_name(cdid.krate).to_string())));
                        match Instance::try_resolve(tcx, env, cdid, cargs) {
                            Ok(Some(inst)) => {
                                self.resolved += 1;
                                let rd = inst.def_id();
                                v.push(("res", s(path_of(tcx, rd))));
                                v.push(("resargs", s(path_with_args(tcx, rd, inst.args))));
                                v.push(("reskrate", s(tcx.crate_name(rd.krate).to_string())));
                                let kind = match inst.def {
                                    ty::InstanceKind::Item(_) => "item",
                                    ty::InstanceKind::Virtual(..) => "virtual",
                                    ty::InstanceKind::FnPtrShim(..) => "fnptrshim",
                                    ty::InstanceKind::ClosureOnceShim { .. } => "closureonce",
                                    ty::InstanceKind::CloneShim(..) => "cloneshim",
                                    ty::InstanceKind::DropGlue(..) => "dropglue",
                                    ty::InstanceKind::Intrinsic(..) => "intrinsic",
                                    ty::InstanceKind::ReifyShim(..) => "reifyshim",
                                    _ => "othershim",
                                };
                                v.push(("reskind", s(kind)));
                            }
                            _ => {}
                        }
                        // generic args as type strings (closure types show up here)
                        let gas: Vec<J> = cargs
                            .iter()
                            .filter_map(|a| a.as_type())
                            .map(|t| {
                                let mut o = vec![("ty", s(ty_str(t)))];
                                if let ty::Closure(cd, _) = t.kind() {
                                    o.push(("closure", s(path_of(tcx, *cd))));
                                }
                                if let ty::FnDef(fd, _) = t.kind() {
                                    o.push(("fndef", s(path_of(tcx, *fd))));
                                }
                                J::Obj(o)
                            })
                            .collect();
                        v.push(("gargs", J::Arr(gas)));
                    } else {
                        self.indirect += 1;
                        v.push(("indirect", self.operand(body, env, func)));
                        v.push(("fnty", s(ty_str(func.ty(&body.local_decls, tcx)))));
                    }
                    v.push((
                        "args",
                        J::Arr(args.iter().map(|a| self.operand(body, env, &a.node)).collect()),
                    ));
                    v.push(("dest", self.place(body, destination)));
                    v.push(("target", target.as_ref().map(bbi).unwrap_or(J::Null)));
                    J::Obj(v)
                }
                TerminatorKind::Assert { cond, expected, msg, target, .. } => {
                    self.asserts += 1;
                    use mir::AssertKind::*;
                    let (kind, ops): (String, Vec<J>) = match &**msg {
                        BoundsCheck { len, index } => (
                            "BoundsCheck".into(),
                            vec![self.operand(body, env, len), self.operand(body, env, index)],
                        ),
                        Overflow(op, a, b) => (
                            format!("Overflow({:?})", op),
                            vec![self.operand(body, env, a), self.operand(body, env, b)],
                        ),
                        OverflowNeg(a) => ("OverflowNeg".into(), vec![self.operand(body, env, a)]),
                        DivisionByZero(a) => {
                            ("DivisionByZero".into(), vec![self.operand(body, env, a)])
                        }
                        RemainderByZero(a) => {
                            ("RemainderByZero".into(), vec![self.operand(body, env, a)])
                        }
                        MisalignedPointerDereference { .. } => ("MisalignedPointer".into(), vec![]),
                        NullPointerDereference => ("NullPointer".into(), vec![]),
                        InvalidEnumConstruction(_) => ("InvalidEnum".into(), vec![]),
                        other => (format!("{:?}", other), vec![]),
                    };
                    J::Obj(vec![
                        ("k", s("assert")),
                        ("kind", s(kind)),
                        ("cond", self.operand(body, env, cond)),
                        ("expected", J::Bool(*expected)),
                        ("ops", J::Arr(ops)),
                        ("target", bbi(target)),
                    ])
                }
                TerminatorKind::FalseEdge { real_target, .. } => {
                    J::Obj(vec![("k", s("goto")), ("target", bbi(real_target))])
                }
                TerminatorKind::FalseUnwind { real_target, .. } => {
                    J::Obj(vec![("k", s("goto")), ("target", bbi(real_target))])
                }
                other => J::Obj(vec![("k", s("other")), ("text", s(format!("{:?}", other)))]),
            };
            let mut tv = match t {
                J::Obj(v) => v,
                _ => vec![],
            };
            tv.push(("loc", tl));
            blocks.push(J::Obj(vec![
                ("stmts", J::Arr(stmts)),
                ("term", J::Obj(tv)),
                ("cleanup", J::Bool(data.is_cleanup)),
            ]));
        }
        let mut locals = vec![];
        for (_l, decl) in body.local_decls.iter_enumerated() {
            locals.push(s(ty_str(decl.ty)));
        }
        let mut names = vec![];
        for vdi in &body.var_debug_info {
            if let mir::VarDebugInfoContents::Place(p) = &vdi.value {
                names.push(J::Arr(vec![
                    s(vdi.name.to_string()),
                    self.place(body, p),
                ]));
            }
        }
        let kind = match tcx.def_kind(did) {
            DefKind::Fn => "Fn",
            DefKind::AssocFn => "AssocFn",
            DefKind::Closure => "Closure",
            DefKind::Const { .. } | DefKind::AssocConst { .. } => "Const",
            DefKind::Static { .. } => "Static",
            _ => "Other",
        };
        let vis = match tcx.def_kind(did) {
            DefKind::Fn | DefKind::AssocFn => format!("{:?}", tcx.visibility(did)),
            _ => String::new(),
        };
        let mut v = vec![
            ("path", s(path_of(tcx, did))),
            ("kind", s(kind)),
            ("vis", s(vis)),
            ("argc", J::Int(body.arg_count as i128)),
            ("span", loc(tcx, body.span)),
            ("locals", J::Arr(locals)),
            ("names", J::Arr(names)),
            ("blocks", J::Arr(blocks)),
        ];
        if let Some(p) = promoted {
            v.push(("promoted", J::Int(p as i128)));
        }
        if tcx.def_kind(did) == DefKind::Closure {
            v.push(("parent", s(path_of(tcx, tcx.parent(did)))));
        }
        // trait impl info for associated fns
        if tcx.def_kind(did) == DefKind::AssocFn {
            if let Some(impl_did) = tcx.impl_of_assoc(did) {
                let self_ty = tcx.type_of(impl_did).instantiate_identity().skip_norm_wip();
                v.push(("impl_self", s(ty_str(self_ty))));
                if let Some(tr) = tcx.impl_opt_trait_ref(impl_did) {
                    let tr = tr.instantiate_identity().skip_norm_wip();
                    v.push(("impl_trait", s(path_of(tcx, tr.def_id))));
                }
            }
        }
        J::Obj(v)
    }
}

fn adts(tcx: TyCtxt<'_>) -> J {
    let mut out = vec![];
    for id in tcx.hir_free_items() {
        let item = tcx.hir_item(id);
        let did = item.owner_id.to_def_id();
        let sm = tcx.sess.source_map();
        let field_json = |fields: &[rustc_hir::FieldDef<'_>]| -> J {
            J::Arr(
                fields
                    .iter()
                    .map(|f| {
                        let t = tcx.type_of(f.def_id).instantiate_identity().skip_norm_wip();
                        J::Obj(vec![
                            ("name", s(f.ident.to_string())),
                            ("ty", s(ty_str(t))),
                            ("hir", s(sm.span_to_snippet(f.ty.span).unwrap_or_default())),
                        ])
                    })
                    .collect(),
            )
        };
        match &item.kind {
            rustc_hir::ItemKind::Struct(_, _, vd) => {
                out.push(J::Obj(vec![
                    ("path", s(path_of(tcx, did))),
                    ("kind", s("struct")),
                    ("loc", loc(tcx, item.span)),
                    (
                        "variants",
                        J::Arr(vec![J::Obj(vec![
                            ("name", s("")),
                            ("fields", field_json(vd.fields())),
                        ])]),
                    ),
                ]));
            }
            rustc_hir::ItemKind::Enum(_, _, ed) => {
                let vs = ed
                    .variants
                    .iter()
                    .map(|v| {
                        J::Obj(vec![
                            ("name", s(v.ident.to_string())),
                            ("fields", field_json(v.data.fields())),
                        ])
                    })
                    .collect();
                out.push(J::Obj(vec![
                    ("path", s(path_of(tcx, did))),
                    ("kind", s("enum")),
                    ("loc", loc(tcx, item.span)),
                    ("variants", J::Arr(vs)),
                ]));
            }
            _ => {}
        }
    }
    J::Arr(out)
}

struct Cb {
    out_dir: String,
}

impl rustc_driver::Callbacks for Cb {
    fn after_analysis<'tcx>(
        &mut self,
        _c: &rustc_interface::interface::Compiler,
        tcx: TyCtxt<'tcx>,
    ) -> rustc_driver::Compilation {
        let krate = tcx.crate_name(LOCAL_CRATE).to_string();
        let mut cx = Cx { tcx, calls: 0, resolved: 0, indirect: 0, asserts: 0 };
        let mut bodies = vec![];
        let mut nbodies = 0usize;
        let mut keys: Vec<_> = tcx.mir_keys(()).iter().copied().collect();
        keys.sort_by_key(|k| tcx.def_path_str(k.to_def_id()));
        for ldid in keys {
            let did = ldid.to_def_id();
            match tcx.def_kind(did) {
                DefKind::Fn | DefKind::AssocFn | DefKind::Closure => {}
                _ => continue,
            }
            let body = tcx.optimized_mir(did);
            bodies.push(cx.body(did, body, None));
            nbodies += 1;
            let promoted = tcx.promoted_mir(did);
            for (i, pb) in promoted.iter_enumerated() {
                bodies.push(cx.body(did, pb, Some(i.index())));
            }
        }
        let root = J::Obj(vec![
            ("crate", s(krate.clone())),
            (
                "census",
                J::Obj(vec![
                    ("bodies", J::Int(nbodies as i128)),
                    ("calls", J::Int(cx.calls as i128)),
                    ("resolved_calls", J::Int(cx.resolved as i128)),
                    ("indirect_calls", J::Int(cx.indirect as i128)),
                    ("asserts", J::Int(cx.asserts as i128)),
                ]),
            ),
            ("adts", adts(tcx)),
            ("fns", J::Arr(bodies)),
        ]);
        let mut out = String::new();
        root.write(&mut out);
        let path = format!("{}/{}.json", self.out_dir, krate);
        std::fs::write(&path, out).expect("mwfacts: cannot write fact file");
        rustc_driver::Compilation::Continue
    }
}

fn main() {
    let mut args: Vec<String> = std::env::args().collect();
    // RUSTC_WORKSPACE_WRAPPER: argv[1] is the path of the real rustc
    if args.len() > 1 && (args[1].ends_with("rustc") || args[1].contains("/rustc")) {
        args.remove(1);
    }
    let out_dir = std::env::var("MWFACTS_OUT").unwrap_or_default();
    // Only dump for real crate compilations of workspace members (the wrapper
    // is only invoked for those), and not for build-script/probe invocations.
    let is_probe = args.iter().any(|a| a == "-vV" || a == "--version" || a.starts_with("--print"));
    let crate_name = args
        .iter()
        .position(|a| a == "--crate-name")
        .and_then(|i| args.get(i + 1))
        .cloned()
        .unwrap_or_default();
    let want = !out_dir.is_empty()
        && !is_probe
        && !crate_name.is_empty()
        && crate_name != "build_script_build"
        && !args.iter().any(|a| a == "--test");
    if want {
        let mut cb = Cb { out_dir };
        rustc_driver::run_compiler(&args, &mut cb);
    } else {
        struct Nop;
        impl rustc_driver::Callbacks for Nop {}
        rustc_driver::run_compiler(&args, &mut Nop);
    }
}
